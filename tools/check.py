#!/usr/bin/env python3
"""The one entry point: tools/check.py Cnn --tier quick|thorough [--replay f]

Contract (DESIGN.md section 4): exit 0 if the property held on everything
explored; exit 1 with a line `VIOLATION property=<id> replay=<path>` otherwise;
`KNOWN-FINDING: property=<id> ...` for listed findings; evidence/<id>.json is
rewritten on every run.
"""
import argparse
import importlib
import json
import os
import re
import shutil
import sys
import time

sys.path.insert(0, os.path.dirname(os.path.abspath(__file__)))
import common as C  # noqa: E402


def load_cfg(prop):
    return importlib.import_module("props." + prop)


def run_translator(cfg, problems):
    gens = list(getattr(cfg, "GEN", []))
    gens += [g for g in C.gen_modules_needed(cfg.PROP) if g not in gens]
    if not gens:
        return {}
    import translate
    with C.flock("lake-gen"):
        try:
            return translate.run(gens)
        except translate.TranslateError as e:
            problems.append({"kind": "translator", "detail": str(e)})
            return {}


def failing_decls(lake_out):
    """Extract theorem names / file:line from lake error output."""
    errs = re.findall(r"error: ([^\n]*\.lean:\d+:\d+): ([^\n]*)", lake_out)
    return ["%s %s" % e for e in errs][:20]


def run_harness(exe, cfg, tier, seed, outdir, extra=()):
    shutil.rmtree(outdir, ignore_errors=True)
    os.makedirs(outdir)
    args = [exe, "--seed", str(seed), "--tier", tier, "--out", outdir,
            "--corpus", os.path.join(C.VERIF, "corpus", cfg.PROP)] + list(extra)
    tmo = getattr(cfg, "TIMEOUT", {}).get(tier, 3600 if tier == "quick" else 6 * 3600)
    rc, out = C.sh(args, env=C.SAN_ENV, timeout=tmo)
    return rc, out


def read_lines(p):
    if not os.path.exists(p):
        return []
    with open(p, errors="replace") as f:
        return f.read().splitlines()


def parse_oracle(outdir):
    fails = []
    for ln in read_lines(os.path.join(outdir, "oracle.txt")):
        ln = ln.strip()
        if not ln:
            continue
        try:
            fails.append(json.loads(ln))
        except Exception:
            fails.append({"case": "?", "what": ln})
    return fails


def main():
    ap = argparse.ArgumentParser()
    ap.add_argument("prop")
    ap.add_argument("--tier", default=os.environ.get("VERIF_TIER", "quick"))
    ap.add_argument("--replay")
    ap.add_argument("--keep", action="store_true")
    a = ap.parse_args()
    prop, tier = a.prop, a.tier
    seed = int(os.environ.get("VERIF_SEED", "1"))
    t0 = time.time()
    cfg = load_cfg(prop)
    cfg.PROP = prop
    if hasattr(cfg, "custom_main"):
        sys.exit(cfg.custom_main(a, seed))

    problems = []   # each: {"kind","detail",...}
    notes = []
    kf = C.load_known_findings()
    open_kf = {f["id"]: f for f in kf.get("findings", []) if f["property"] == prop and f.get("status", "open") == "open"}

    # 1. translator
    gen_info = run_translator(cfg, problems)

    # 2. Lean: driver first (model only), then the theorems
    driver = getattr(cfg, "DRIVER", "drv_" + prop)
    rc, out, t_drv = C.lake_build([driver])
    driver_ok = rc == 0
    if not driver_ok:
        problems.append({"kind": "model-build", "detail": "\n".join(failing_decls(out)) or out[-2000:]})
    rc, out, t_thm = C.lake_build(["ColoVerif.Properties." + prop])
    thm_ok = rc == 0
    if not thm_ok:
        problems.append({"kind": "theorem", "detail": "\n".join(failing_decls(out)) or out[-2000:],
                         "theorem": "; ".join(failing_decls(out)[:3])})

    # 3. audit
    if thm_ok:
        au = C.audit(prop)
        for n, why in au["bad"]:
            problems.append({"kind": "audit", "detail": "%s: %s" % (n, why), "theorem": n})
    else:
        names = C.property_theorems(prop)
        au = {"obligations": len(names), "discharged": 0, "names": names, "axioms": {}, "modules": []}
    # 3b. tie audit: which of the definitions the theorems speak about does the driver execute
    # against the C++ (or the translator regenerate from it)?  A property whose theorems mention none is
    # not tied to the code at all, whatever its proofs say.
    tie = {}
    if thm_ok and driver_ok and getattr(cfg, "DRIVER", None) is None and not a.replay:
        ta = C.tie_audit(prop, au.get("names", []))
        per = ta["per_theorem"]
        tied = sorted(n for n, v in per.items() if v["executed"] or v["generated"])
        tie = {
            "theorems_about_executed_or_generated_definitions": len(tied),
            "theorems_spec_level_only": sorted(n for n in per if n not in tied),
            "executed_definitions_mentioned": sorted({d for v in per.values() for d in v["executed"]}),
            "generated_definitions_mentioned": sorted({d for v in per.values() for d in v["generated"]}),
            "spec_level_definitions_mentioned": sorted({d for v in per.values() for d in v["spec_level"]}),
            "per_theorem": {n: {"executed": len(v["executed"]), "generated": len(v["generated"]), "spec_level": v["spec_level"]}
                            for n, v in per.items()},
        }
        if ta["raw"]:
            notes.append("tie audit incomplete: " + ta["raw"][-600:])
        elif not tied:
            problems.append({"kind": "audit", "detail": "tie audit: no property theorem mentions a definition that drv_%s executes or "
                                                        "that is regenerated from the source" % prop, "theorem": "tie-audit"})
    checker = ["lake build %s ColoVerif.Properties.%s" % (driver, prop),
               "lake env lean <#print axioms for %d theorems>" % au["obligations"]]
    if tier == "thorough" and thm_ok:
        rc, out = C.sh(["lake", "env", "leanchecker", "ColoVerif.Properties." + prop], cwd=C.lean_dir(), timeout=3600)
        checker.append("lake env leanchecker ColoVerif.Properties." + prop)
        if rc != 0:
            problems.append({"kind": "audit", "detail": "leanchecker: " + out[-1500:], "theorem": "leanchecker"})

    # 4-6. harness + correspondence + oracle
    variant = getattr(cfg, "VARIANT", "san")
    stats, corr_lines, oracle_fails, kf_hits = {}, 0, [], {}
    outdir = os.path.join(C.CACHE, "run", "%s-%d" % (prop, os.getpid()))
    exe = None
    try:
        exe = C.build_harness(getattr(cfg, "HARNESS", "h_" + prop), variant,
                              extra_flags=getattr(cfg, "HARNESS_FLAGS", ()),
                              link_lib=getattr(cfg, "LINK_LIB", True))
    except RuntimeError as e:
        print("ERROR: cannot build harness for %s:\n%s" % (prop, e))
        problems.append({"kind": "harness-build", "detail": str(e)[-3000:]})
    if exe:
        extra = ["--replay", os.path.abspath(a.replay)] if a.replay else []
        rc, hout = run_harness(exe, cfg, tier, seed, outdir, extra)
        if rc != 0:
            problems.append({"kind": "harness-crash", "detail": "exit %d\n%s" % (rc, hout[-3000:])})
        sp = os.path.join(outdir, "stats.json")
        if os.path.exists(sp):
            try:
                stats = json.load(open(sp))
            except Exception as e:
                problems.append({"kind": "harness-crash", "detail": "bad stats.json: %s" % e})
        ops = os.path.join(outdir, "ops.txt")
        impl_path = os.path.join(outdir, "impl.txt")
        if driver_ok and os.path.exists(ops):
            import subprocess
            drv = os.path.join(C.lean_dir(), ".lake", "build", "bin", driver)
            model_path = os.path.join(outdir, "model.txt")
            with open(ops) as fin, open(model_path, "w") as fout:
                p = subprocess.run([drv], stdin=fin, stdout=fout, stderr=subprocess.PIPE, text=True, errors="replace")
            if p.returncode != 0:
                problems.append({"kind": "model-crash", "detail": p.stderr[-2000:]})
            # streaming comparison (the streams can be tens of millions of lines)
            diff = None
            last_case = None
            n = 0
            prev = None  # compare with one line of delay so that a dead harness' ragged tail is ignored
            with open(model_path, errors="replace") as fm, open(impl_path, errors="replace") as fi:
                while True:
                    lm, li = fm.readline(), fi.readline()
                    if not lm and not li:
                        break
                    if rc != 0 and (not lm or not li):
                        break  # the harness died: only the common prefix is aligned
                    if prev is not None:
                        a_, b_, idx = prev
                        if a_.startswith("case "):
                            last_case = a_.split()[1] if len(a_.split()) > 1 else None
                        elif b_.startswith("case "):
                            last_case = b_.split()[1] if len(b_.split()) > 1 else None
                        if a_ != b_:
                            diff = (idx, a_, b_)
                            break
                    prev = (lm.rstrip("\n") if lm else "<eof>", li.rstrip("\n") if li else "<eof>", n)
                    n += 1
                if diff is None and prev is not None and rc == 0:
                    a_, b_, idx = prev
                    if a_.startswith("case ") and len(a_.split()) > 1:
                        last_case = a_.split()[1]
                    if a_ != b_:
                        diff = (idx, a_, b_)
            corr_lines = n
            if diff is not None:
                i, mline, iline = diff
                k = last_case
                case_ops = []
                take = False
                with open(ops, errors="replace") as fo:
                    for ln in fo:
                        ln = ln.rstrip("\n")
                        if ln.startswith("case "):
                            if take:
                                break
                            take = (len(ln.split()) > 1 and ln.split()[1] == k)
                        if take and len(case_ops) < 400:
                            case_ops.append(ln)
                problems.append({"kind": "correspondence", "case": k, "line": i, "model": mline, "impl": iline,
                                 "ops": case_ops,
                                 "detail": "model and implementation differ at stream line %d (case %s)" % (i, k)})
        for f in parse_oracle(outdir):
            fid = f.get("kf")
            if fid and fid in open_kf:
                kf_hits[fid] = kf_hits.get(fid, 0) + 1
            else:
                oracle_fails.append(f)

    # 7. known findings
    for fid in open_kf:
        total = int(stats.get("distribution", {}).get("known_finding:" + fid, 0))
        kf_hits[fid] = max(kf_hits.get(fid, 0), total)
    for fid, f in open_kf.items():
        print("KNOWN-FINDING: property=%s %s: %s (hits this run: %d)" % (prop, fid, f["what"], kf_hits.get(fid, 0)))

    # 8. verdict + search
    violation = None
    if oracle_fails:
        # headline: the first failure that states a property clause on a concrete input; a crash record of an
        # in-process stream ("regenerated from its id") carries less and goes after them (all are kept in n_failures)
        oracle_fails.sort(key=lambda f: 1 if str(f.get("what", "")).startswith("crash:") else 0)
        f = oracle_fails[0]
        violation = {"failed": "oracle", "on": "implementation", "case": f.get("case"), "what": f.get("what"),
                     "input": f.get("input"), "n_failures": len(oracle_fails), "others": oracle_fails[1:5]}
        tail = ""
    elif problems:
        # a tie is broken: look for a concrete failing input with the direct oracle
        found = None
        if exe and not a.replay:
            sdir = outdir + "-search"
            rc, hout = run_harness(exe, cfg, "search", seed + 1000, sdir)
            for f in parse_oracle(sdir):
                if not (f.get("kf") in open_kf):
                    found = f
                    break
            if found is None and rc != 0:
                notes.append("search harness exit %d: %s" % (rc, hout[-500:]))
            if not a.keep:
                shutil.rmtree(sdir, ignore_errors=True)
        pr = problems[0]
        violation = {"failed": pr["kind"], "broken": pr.get("theorem") or pr.get("detail"), "problems": problems[:6]}
        if found:
            violation.update({"on": "implementation", "case": found.get("case"), "what": found.get("what"),
                              "input": found.get("input")})
            tail = ""
        elif pr["kind"] == "correspondence":
            # the differing case itself is a concrete input on which model and code disagree; it is
            # not (yet) a property failure
            violation.update({"case": pr.get("case"), "correspondence_ops": pr.get("ops"),
                              "model_line": pr.get("model"), "impl_line": pr.get("impl")})
            tail = " no-failing-input-found"
        else:
            tail = " no-failing-input-found"

    wall = time.time() - t0
    cov = {
        "obligations": au["obligations"] + (1 if getattr(cfg, "GEN", []) else 0),
        "discharged": au["discharged"] + (1 if getattr(cfg, "GEN", []) and not any(p["kind"] == "translator" for p in problems) else 0),
        "checker_cmd": " && ".join(checker),
        "trusted_base": C.TRUSTED_BASE + list(getattr(cfg, "EXTRA_TRUSTED", [])),
        "theorems": au.get("names", []),
        "axioms": au.get("axioms", {}),
        "evaluations": int(stats.get("evaluations", 0)),
        "distinct_nontrivial": int(stats.get("distinct_nontrivial", 0)),
        "rule": stats.get("rule", getattr(cfg, "RULE", "")),
        "samples": stats.get("samples", [])[:8] or ["<none>"],
        "traces_validated_against_impl": corr_lines,
        "distribution": stats.get("distribution", {}),
        "tie_audit": tie,
        "partial_clauses": getattr(cfg, "PARTIAL", []),
        "known_findings_hit": kf_hits,
        "generated": gen_info,
        "exhaustive": bool(stats.get("exhaustive", False)),
        "timing": {"driver_build_s": round(t_drv, 1), "theorem_build_s": round(t_thm, 1)},
        "notes": notes + stats.get("notes", []),
    }
    if not a.replay:
        C.write_evidence(prop, tier if tier in ("quick", "thorough") else "quick", seed, cov,
                         getattr(cfg, "ASSUMPTIONS", []), wall, 1 if violation else 0)
    if not a.keep:
        shutil.rmtree(outdir, ignore_errors=True)
    if violation:
        violation.update({"property": prop, "tier": tier, "seed": seed,
                          "replay_cmd": "python3 tools/check.py %s --tier %s --replay <this file>" % (prop, tier)})
        rp = C.write_replay(prop, seed, violation.get("case", "x"), violation)
        print("VIOLATION property=%s replay=%s%s" % (prop, rp, tail))
        for p in problems[:5]:
            print("  problem[%s]: %s" % (p["kind"], str(p.get("detail"))[:600]))
        if oracle_fails:
            print("  oracle: %s" % json.dumps(oracle_fails[0])[:800])
        return 1
    print("OK property=%s tier=%s seed=%d theorems=%d/%d evaluations=%d corr_lines=%d wall=%.1fs" % (
        prop, tier, seed, cov["discharged"], cov["obligations"], cov["evaluations"], corr_lines, wall))
    return 0


if __name__ == "__main__":
    sys.exit(main())
