"""Shared machinery for all property checks (see DESIGN.md section 4).

Everything here derives paths from __file__; the repository under test is
$VERIF_REPO (default /repo) so that fixes and seeded mutations can be tried in a
scratch worktree with the very same checks.
"""
import contextlib
import fcntl
import hashlib
import json
import os
import re
import shutil
import subprocess
import sys
import time
from concurrent.futures import ThreadPoolExecutor

VERIF = os.path.dirname(os.path.dirname(os.path.abspath(__file__)))
REPO = os.environ.get("VERIF_REPO", "/repo")
LEAN_SRC = os.path.join(VERIF, "lean")
CACHE = os.environ.get("VERIF_CACHE", os.path.join(VERIF, ".cache"))
EVID = os.environ.get("VERIF_EVID", os.path.join(VERIF, "evidence"))
GUARD = "COLOQUINTE_VERIF"
NCPU = os.cpu_count() or 4

LIB_SOURCES = [
    "src/coloquinte.cpp", "src/parameters.cpp", "src/export.cpp",
    "src/place_global/net_model.cpp", "src/place_global/density_legalizer.cpp",
    "src/place_global/density_grid.cpp", "src/place_global/place_global.cpp",
    "src/place_detailed/legalizer.cpp", "src/place_detailed/abacus_legalizer.cpp",
    "src/place_detailed/tetris_legalizer.cpp", "src/place_detailed/row_legalizer.cpp",
    "src/place_detailed/place_detailed.cpp", "src/place_detailed/detailed_placement.cpp",
    "src/place_detailed/incr_net_model.cpp", "src/place_detailed/row_neighbourhood.cpp",
    "src/place_global/transportation.cpp", "src/place_global/transportation_1d.cpp",
]

VARIANTS = {
    # asserts on (README default build), ASan+UBSan
    "san": ["-O1", "-g", "-fsanitize=address,undefined", "-fno-sanitize-recover=all",
            "-fno-omit-frame-pointer", "-UNDEBUG"],
    # asserts off
    "san_ndebug": ["-O1", "-g", "-fsanitize=address,undefined", "-fno-sanitize-recover=all",
                   "-fno-omit-frame-pointer", "-DNDEBUG"],
    # fast, asserts on, no sanitizer (exhaustive enumerations)
    "fast": ["-O2", "-g0", "-UNDEBUG"],
    "tsan": ["-O1", "-g", "-fsanitize=thread", "-UNDEBUG"],
}
BASE_FLAGS = ["-std=c++17", "-fPIC", "-pthread", "-D" + GUARD, "-Wno-deprecated-declarations"]


def log(*a):
    print(*a, flush=True)


def sh(cmd, cwd=None, timeout=None, env=None, check=False, input=None):
    """Run a command, return (rc, stdout+stderr)."""
    e = dict(os.environ)
    if env:
        e.update(env)
    try:
        p = subprocess.run(cmd, cwd=cwd, env=e, stdout=subprocess.PIPE, stderr=subprocess.STDOUT,
                           timeout=timeout, input=input, text=True, errors="replace",
                           shell=isinstance(cmd, str))
        rc, out = p.returncode, p.stdout
    except subprocess.TimeoutExpired as ex:
        rc, out = 124, (ex.stdout or "") + "\n[timeout]"
        if isinstance(out, bytes):
            out = out.decode(errors="replace")
    if check and rc != 0:
        raise RuntimeError("command failed (%d): %s\n%s" % (rc, cmd, out[-4000:]))
    return rc, out


@contextlib.contextmanager
def flock(name):
    os.makedirs(CACHE, exist_ok=True)
    path = os.path.join(CACHE, name + ".lock")
    with open(path, "w") as f:
        fcntl.flock(f, fcntl.LOCK_EX)
        try:
            yield
        finally:
            fcntl.flock(f, fcntl.LOCK_UN)


# --------------------------------------------------------------------------
# Lean side
# --------------------------------------------------------------------------

def lean_dir():
    """Directory in which lake runs.  LKDIR (used while developing several
    properties in parallel) is a private build directory whose sources are
    symlinks to /verif/lean, so there is one source of truth and no shared
    .lake."""
    d = os.environ.get("LKDIR")
    if not d:
        return LEAN_SRC
    os.makedirs(d, exist_ok=True)
    for n in ["Driver", "lakefile.toml"]:
        dst = os.path.join(d, n)
        if not os.path.lexists(dst):
            os.symlink(os.path.join(LEAN_SRC, n), dst)
    cv = os.path.join(d, "ColoVerif")
    if os.path.islink(cv):
        return d  # older layout: whole source tree shared, including Gen
    # private Gen/ (generated from $VERIF_REPO), everything else symlinked
    os.makedirs(os.path.join(cv, "Gen"), exist_ok=True)
    for n in os.listdir(os.path.join(LEAN_SRC, "ColoVerif")):
        if n == "Gen":
            continue
        dst = os.path.join(cv, n)
        if not os.path.lexists(dst):
            os.symlink(os.path.join(LEAN_SRC, "ColoVerif", n), dst)
    return d


def gen_dir():
    return os.path.join(lean_dir(), "ColoVerif", "Gen")


def lake_build(targets, timeout=3600):
    d = lean_dir()
    with flock("lake-" + hashlib.sha1(d.encode()).hexdigest()[:8]):
        t0 = time.time()
        rc, out = sh(["lake", "build"] + list(targets), cwd=d, timeout=timeout)
        return rc, out, time.time() - t0


FORBIDDEN = re.compile(r"\bsorry\b|\badmit\b|^\s*axiom\s|native_decide|bv_decide|implemented_by|"
                       r"\bunsafe\s|maxHeartbeats\s+0\b|\bextern\b", re.M)


def strip_lean_comments(src):
    out, i, depth, n = [], 0, 0, len(src)
    while i < n:
        if src.startswith("/-", i):
            depth += 1
            i += 2
        elif depth and src.startswith("-/", i):
            depth -= 1
            i += 2
        elif depth:
            if src[i] == "\n":
                out.append("\n")
            i += 1
        elif src.startswith("--", i):
            while i < n and src[i] != "\n":
                i += 1
        elif src[i] == '"':
            j = i + 1
            while j < n and src[j] != '"':
                j += 2 if src[j] == "\\" else 1
            out.append('""')
            i = j + 1
        else:
            out.append(src[i])
            i += 1
    return "".join(out)


def lean_imports_closure(module):
    """All ColoVerif.* modules reachable from `module` (source-level scan)."""
    seen, todo = set(), [module]
    while todo:
        m = todo.pop()
        if m in seen:
            continue
        p = os.path.join(LEAN_SRC, *m.split(".")) + ".lean"
        if not os.path.exists(p):
            continue
        seen.add(m)
        for mm in re.findall(r"^\s*(?:public\s+)?import\s+([\w.]+)", open(p).read(), re.M):
            if mm.startswith("ColoVerif.") or mm.startswith("Driver."):
                todo.append(mm)
    return sorted(seen)


def gen_modules_needed(prop):
    """Names X of every generated module ColoVerif.Gen.X imported (transitively) by the property's
    theorem file or driver: their translators must run before lake does, whether or not the
    property's own GEN list names them (a property can import another property's theorems)."""
    seen, todo, gens = set(), ["ColoVerif.Properties." + prop, "Driver." + prop], set()
    while todo:
        m = todo.pop()
        if m in seen:
            continue
        seen.add(m)
        if m.startswith("ColoVerif.Gen."):
            gens.add(m.split(".")[-1])
            continue
        p = os.path.join(LEAN_SRC, *m.split(".")) + ".lean"
        if not os.path.exists(p):
            continue
        for mm in re.findall(r"^\s*(?:public\s+)?import\s+([\w.]+)", open(p).read(), re.M):
            if mm.startswith("ColoVerif.") or mm.startswith("Driver."):
                todo.append(mm)
    return sorted(gens)


def grep_forbidden(modules):
    hits = []
    for m in modules:
        p = os.path.join(LEAN_SRC, *m.split(".")) + ".lean"
        src = strip_lean_comments(open(p).read())
        for mt in FORBIDDEN.finditer(src):
            line = src.count("\n", 0, mt.start()) + 1
            hits.append("%s:%d: %s" % (os.path.relpath(p, VERIF), line, mt.group(0).strip()))
    return hits


ALLOWED_AXIOMS = {"propext", "Classical.choice", "Quot.sound"}


def property_theorems(prop):
    """Names of the theorems stated in Properties/<prop>.lean (namespace
    ColoVerif.<prop>)."""
    p = os.path.join(LEAN_SRC, "ColoVerif", "Properties", prop + ".lean")
    src = strip_lean_comments(open(p).read())
    names = re.findall(r"^\s*(?:@\[[^\]]*\]\s*)?(?:protected\s+)?theorem\s+([\w.'!?]+)", src, re.M)
    return ["ColoVerif.%s.%s" % (prop, n) for n in names]


def audit(prop):
    """Run `#print axioms` on every property theorem.  Returns a dict with
    obligations, discharged, bad (list of (name, reason)), axioms per theorem."""
    names = property_theorems(prop)
    mods = lean_imports_closure("ColoVerif.Properties." + prop)
    hits = grep_forbidden(mods)
    d = lean_dir()
    os.makedirs(os.path.join(CACHE, "audit"), exist_ok=True)
    f = os.path.join(CACHE, "audit", "Audit_%s_%d.lean" % (prop, os.getpid()))
    with open(f, "w") as fh:
        fh.write("import ColoVerif.Properties.%s\n" % prop)
        for n in names:
            fh.write("#print axioms %s\n" % n)
    rc, out = sh(["lake", "env", "lean", f], cwd=d, timeout=1800)
    os.unlink(f)
    axioms, bad = {}, []
    # output: "'name' depends on axioms: [a, b]" or "'name' does not depend on any axioms"
    for m in re.finditer(r"'([^']+)' (does not depend on any axioms|depends on axioms: \[([^\]]*)\])", out):
        n = m.group(1)
        ax = [a.strip() for a in (m.group(3) or "").replace("\n", " ").split(",") if a.strip()]
        axioms[n] = ax
    for n in names:
        if n not in axioms:
            bad.append((n, "not found / did not elaborate"))
        else:
            extra = [a for a in axioms[n] if a not in ALLOWED_AXIOMS]
            if extra:
                bad.append((n, "depends on " + ",".join(extra)))
    for h in hits:
        bad.append(("source", "forbidden token " + h))
    return {"obligations": len(names), "discharged": len(names) - len({b[0] for b in bad if b[0] != "source"}),
            "bad": bad, "axioms": axioms, "names": names, "modules": mods, "raw": out if rc != 0 else ""}


TIE_LEAN = r"""
import Lean
import ColoVerif.Properties.%(prop)s
import Driver.%(prop)s
open Lean

namespace TieAudit
/-- constants used by the type and the value of `n`; proofs of theorems are not entered -/
def usedBy (env : Environment) (n : Name) : Array Name :=
  match env.find? n with
  | none => #[]
  | some ci =>
    let t := ci.type.getUsedConstants
    match ci with
    | .defnInfo v => t ++ v.value.getUsedConstants
    | .opaqueInfo v => t ++ v.value.getUsedConstants
    | .inductInfo v => t ++ v.ctors.toArray
    | _ => t

set_option linter.unusedVariables false in
partial def closure (env : Environment) (roots : Array Name) : NameSet := Id.run do
  let mut seen : NameSet := {}
  let mut todo := roots
  while !todo.isEmpty do
    let n := todo.back!
    todo := todo.pop
    if seen.contains n then continue
    seen := seen.insert n
    for m in usedBy env n do
      if !seen.contains m then todo := todo.push m
    -- a `partial def` is an opaque constant to the kernel; its body lives in `<name>._unsafe_rec`
    -- (and, in general, in whatever `implemented_by` names): follow the code that actually runs
    let ur := n.str "_unsafe_rec"
    if env.contains ur && !seen.contains ur then todo := todo.push ur
    if let some impl := Lean.Compiler.getImplementedBy? env n then
      if !seen.contains impl then todo := todo.push impl
  return seen

def moduleOf (env : Environment) (n : Name) : String :=
  match env.getModuleIdxFor? n with
  | some i => (env.header.moduleNames[i.toNat]!).toString
  | none => "_here"

def has (s sub : String) : Bool := (s.splitOn sub).length > 1

def isAux (n : Name) : Bool := n.isInternal || has n.toString "match_" || has n.toString "._" || has n.toString ".inst" || has n.toString "instDecidable"

run_cmd do
  let env ← getEnv
  let exec := closure env #[`main]
  for t in [%(names)s] do
    let some ci := env.find? t | IO.println s!"TIE {t} missing"
    let st := closure env ci.type.getUsedConstants
    let ours := st.toList.filter fun n =>
      (`ColoVerif).isPrefixOf n && !isAux n && (match env.find? n with | some (.defnInfo _) => true | _ => false)
    let gen := ours.filter fun n => has (moduleOf env n) "ColoVerif.Gen."
    let ex := ours.filter fun n => exec.contains n && !has (moduleOf env n) "ColoVerif.Gen."
    let spec := ours.filter fun n => !exec.contains n && !has (moduleOf env n) "ColoVerif.Gen."
    IO.println s!"TIE {t} executed={ex.length} generated={gen.length} spec={spec.length} | {" ".intercalate (ex.map toString)} | {" ".intercalate (gen.map toString)} | {" ".intercalate (spec.map toString)}"
end TieAudit
"""


def tie_audit(prop, names):
    """Which definitions do the property theorems speak about?  For every property theorem: the
    ColoVerif definitions its STATEMENT mentions (transitively through definitions, never through
    proofs), split into (a) executed: reachable from `main` of drv_<prop>, i.e. run against the C++ by
    the correspondence on every check, (b) generated: defined in a ColoVerif.Gen.* module regenerated
    from the source on every check, (c) spec-level: neither (predicates, folds over op sequences,
    reference semantics).  A theorem with no (a) and no (b) is not about the code at all."""
    d = lean_dir()
    os.makedirs(os.path.join(CACHE, "audit"), exist_ok=True)
    f = os.path.join(CACHE, "audit", "Tie_%s_%d.lean" % (prop, os.getpid()))
    with open(f, "w") as fh:
        fh.write(TIE_LEAN % {"prop": prop, "names": ", ".join("`" + n for n in names)})
    rc, out = sh(["lake", "env", "lean", f], cwd=d, timeout=1800)
    os.unlink(f)
    res = {}
    for ln in out.splitlines():
        m = re.match(r"TIE (\S+) executed=(\d+) generated=(\d+) spec=(\d+) \| (.*?) \| (.*?) \| (.*)$", ln)
        if m:
            res[m.group(1)] = {"executed": m.group(5).split(), "generated": m.group(6).split(), "spec_level": m.group(7).split()}
    return {"per_theorem": res, "rc": rc, "raw": out[-3000:] if (rc != 0 or len(res) != len(names)) else ""}


# --------------------------------------------------------------------------
# C++ side
# --------------------------------------------------------------------------

def tree_hash(paths, extra=""):
    h = hashlib.sha256(extra.encode())
    for p in sorted(paths):
        h.update(p.encode())
        with open(p, "rb") as f:
            h.update(f.read())
    return h.hexdigest()[:20]


def repo_sources():
    out = []
    for root, _, files in os.walk(os.path.join(REPO, "src")):
        for fn in files:
            if fn.endswith((".cpp", ".hpp", ".h")):
                out.append(os.path.join(root, fn))
    return out


def build_lib(variant="san", cxx="g++"):
    """Static library of /repo/src for this working tree, content-addressed."""
    flags = BASE_FLAGS + VARIANTS[variant]
    key = tree_hash(repo_sources(), " ".join([cxx] + flags))
    d = os.path.join(CACHE, "lib", variant + "-" + key)
    lib = os.path.join(d, "libcolo.a")
    with flock("lib-" + variant + "-" + key):
        if os.path.exists(lib):
            return lib, 0.0
        t0 = time.time()
        tmp = d + ".tmp%d" % os.getpid()
        shutil.rmtree(tmp, ignore_errors=True)
        os.makedirs(tmp)

        def cc(src):
            o = os.path.join(tmp, src.replace("/", "_") + ".o")
            rc, out = sh([cxx] + flags + ["-I", os.path.join(REPO, "src"), "-c",
                                          os.path.join(REPO, src), "-o", o])
            return rc, out, o
        with ThreadPoolExecutor(NCPU) as ex:
            res = list(ex.map(cc, LIB_SOURCES))
        for rc, out, o in res:
            if rc != 0:
                shutil.rmtree(tmp, ignore_errors=True)
                raise RuntimeError("library build failed:\n" + out[-6000:])
        sh(["ar", "rcs", os.path.join(tmp, "libcolo.a")] + [o for _, _, o in res], check=True)
        for _, _, o in res:
            os.unlink(o)
        # keep the cache small: drop other versions of this variant
        libroot = os.path.join(CACHE, "lib")
        for old in os.listdir(libroot):
            if old.startswith(variant + "-") and old != os.path.basename(tmp):
                shutil.rmtree(os.path.join(libroot, old), ignore_errors=True)
        os.rename(tmp, d)
        return lib, time.time() - t0


def build_harness(name, variant="san", cxx="g++", extra_flags=(), sources=None, link_lib=True):
    """Compile harness/<name>.cpp against the library for the current tree."""
    lib = None
    if link_lib:
        lib, _ = build_lib(variant, cxx)
    srcs = [os.path.join(VERIF, "harness", s) for s in (sources or [name + ".cpp"])]
    hdrs = []
    for root, _, files in os.walk(os.path.join(VERIF, "harness")):
        hdrs += [os.path.join(root, f) for f in files if f.endswith((".hpp", ".h"))]
    flags = BASE_FLAGS + VARIANTS[variant] + list(extra_flags)
    key = tree_hash(srcs + hdrs + ([lib] if lib else []) + repo_sources(), " ".join([cxx] + flags))
    d = os.path.join(CACHE, "bin")
    os.makedirs(d, exist_ok=True)
    exe = os.path.join(d, "%s-%s-%s" % (name, variant, key))
    with flock("bin-" + name + variant):
        if os.path.exists(exe):
            return exe
        for old in os.listdir(d):
            if old.startswith(name + "-" + variant + "-"):
                os.unlink(os.path.join(d, old))
        cmd = [cxx] + flags + ["-I", os.path.join(REPO, "src"), "-I", os.path.join(VERIF, "harness")] + srcs
        if lib:
            cmd += [lib]
        cmd += ["-o", exe + ".tmp"]
        rc, out = sh(cmd)
        if rc != 0:
            raise RuntimeError("harness build failed:\n" + out[-6000:])
        os.rename(exe + ".tmp", exe)
        return exe


# abort_on_error: every sanitizer death raises SIGABRT, which the harness' handler (or the parent of
# a forked child) turns into an oracle failure carrying the current case as replay.  (libasan and
# libubsan each keep their own death-callback slot, so a callback alone misses UBSan reports.)
SAN_ENV = {"ASAN_OPTIONS": "detect_leaks=0:abort_on_error=1:exitcode=99",
           "UBSAN_OPTIONS": "print_stacktrace=1:halt_on_error=1:abort_on_error=1:exitcode=98"}


# --------------------------------------------------------------------------
# Streams, evidence, verdicts
# --------------------------------------------------------------------------

def first_diff(a_lines, b_lines):
    """Index of the first differing line, or None."""
    n = min(len(a_lines), len(b_lines))
    for i in range(n):
        if a_lines[i] != b_lines[i]:
            return i
    if len(a_lines) != len(b_lines):
        return n
    return None


def case_of_line(lines, idx):
    """The last `case <k>` marker at or before line idx."""
    for i in range(min(idx, len(lines) - 1), -1, -1):
        if lines[i].startswith("case "):
            return lines[i].split()[1], i
    return None, 0


def load_known_findings():
    p = os.path.join(VERIF, "known_findings.json")
    if not os.path.exists(p):
        return {"findings": [], "fixed": []}
    return json.load(open(p))


TRUSTED_BASE = [
    "Lean 4.33 kernel; axioms limited to propext, Classical.choice, Quot.sound (audited per theorem on every run)",
    "hand-written executable model tied to the C++ by the correspondence harness (differential, bounded by the generator)",
    "tools/translate.py + clang-14 AST for generated (Gen/*) definitions",
    "g++ 12 / libstdc++ semantics of int, long long, std::sort, std::priority_queue as modelled",
]


def write_evidence(prop, tier, seed, coverage, assumptions, wall, violations):
    os.makedirs(EVID, exist_ok=True)
    ev = {"property_id": prop, "tier": tier, "seed": seed, "level": "proof",
          "coverage": coverage, "assumptions": assumptions, "wall_s": round(wall, 2),
          "violations": violations}
    p = os.path.join(EVID, prop + ".json")
    with open(p + ".tmp", "w") as f:
        json.dump(ev, f, indent=1, sort_keys=True)
    os.rename(p + ".tmp", p)
    return p


def write_replay(prop, seed, k, payload):
    d = os.path.join(EVID, "replays")
    os.makedirs(d, exist_ok=True)
    p = os.path.join(d, "%s-%s-%s.json" % (prop, seed, k))
    with open(p, "w") as f:
        json.dump(payload, f, indent=1)
    return p
