#!/bin/bash
# Run the thorough tier of the given properties one after the other (background soak; evidence is written in the snapshot only).
cd "$(dirname "$0")/.."
[ -d lean/.lake ] || python3 tools/setup.py | tail -3
for p in "$@"; do
  t0=$(date +%s); out=$(python3 tools/check.py $p --tier thorough 2>&1); rc=$?
  echo "thorough $p rc=$rc t=$(( $(date +%s) - t0 ))s $(echo "$out" | grep -E '^(VIOLATION|OK)' | head -3 | tr '\n' ';')"
  [ $rc -ne 0 ] && echo "$out" | tail -40
done
